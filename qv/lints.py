"""Contradiction rules (Engler et al.: "bugs as deviant behaviour") applied to every function of the modules a property
is anchored in.  Each rule is exact - it fires only on a construct that contradicts itself, whatever the function is
for - and expects ZERO instances on a tree where the properties hold, so each carries a tiny positive example that
must fire on every run (a rule matching nothing would pass vacuously forever).

LOOP-ONCE     a `for`/`while` loop whose body contains a decision and leaves the loop (return / raise / break) on every
              path of its first iteration: the loop says "for every element", the body says "only the first".
ITER-MUTATE   a statement inside `for x in C` that adds to / removes from C itself and then goes on iterating.
QUBIT-TRUTHY  a qubit index (0 is a valid index) used as a truth value: `dest or fresh()`, `if not q:`.
INDEX-LEAK    a loop variable of a comprehension-free `for` used after the loop as if it were the loop's *bound*
              (not armed: kept as a note only).

Nothing is executed; the rules read the syntax tree only.
"""
from __future__ import annotations

import ast
import json
import os
from typing import List, Optional, Sequence, Set, Tuple

from .core import AnchorError, FuncInfo, norm

HERE = os.path.dirname(os.path.dirname(os.path.abspath(__file__)))

_GROW_SHRINK = {"remove", "pop", "insert", "append", "extend", "clear", "add", "discard", "update", "popitem", "appendleft", "popleft"}
_QUBIT_SOURCES = {"add_qubit", "get_free_ancilla", "add_ancilla"}


# ---------------------------------------------------------------------------------------------------------------
def scope_of(pid: str) -> Tuple[str, ...]:
    """module prefixes (as in FuncInfo.short) of the files the property is anchored in, from properties.jsonl"""
    out: List[str] = []
    with open(os.path.join(HERE, "properties.jsonl")) as fh:
        for line in fh:
            line = line.strip()
            if not line:
                continue
            p = json.loads(line)
            if p.get("id") != pid:
                continue
            for f in (p.get("anchors") or {}).get("files", []):
                if f.startswith("qlasskit/") and f.endswith(".py"):
                    m = f[len("qlasskit/") : -3].replace("/", ".")
                    if m.endswith(".__init__"):
                        m = m[: -len(".__init__")]
                    out.append(m + ".")
    if not out:
        raise AnchorError(f"properties.jsonl:{pid}", "no anchored files")
    return tuple(out)


_HUBS = ("qlassfun.", "qcircuit.qcircuit.", "types.")


def _anchor_words(pid: str) -> Set[str]:
    import re

    with open(os.path.join(HERE, "properties.jsonl")) as fh:
        for line in fh:
            line = line.strip()
            if line and json.loads(line).get("id") == pid:
                p = json.loads(line)
                txt = json.dumps(p.get("anchors") or {})
                return set(re.findall(r"[A-Za-z_][A-Za-z_0-9]*", txt))
    return set()


def _in_words(fi: FuncInfo, words: Set[str]) -> bool:
    """the function, or the function it is nested in, is named in the anchors (dunder methods: with their class)"""
    f = fi
    while f is not None:
        nm = f.name
        if nm.startswith("__") and nm.endswith("__"):
            if f.cls is not None and f.cls.name in words and nm in words:
                return True
        elif nm in words:
            return True
        f = f.parent
    return False


def _leaves(stmts: Sequence[ast.stmt]) -> bool:
    """every path through stmts ends in return / raise / break (so control never reaches the loop's next iteration)"""
    if not stmts:
        return False
    last = stmts[-1]
    if isinstance(last, (ast.Return, ast.Raise, ast.Break)):
        return True
    if isinstance(last, ast.If):
        return _leaves(last.body) and _leaves(last.orelse)
    if isinstance(last, (ast.With, ast.AsyncWith)):
        return _leaves(last.body)
    if isinstance(last, ast.Try):
        if last.finalbody and _leaves(last.finalbody):
            return True
        main = _leaves(last.body) or (bool(last.orelse) and _leaves(last.orelse))
        return main and all(_leaves(h.body) for h in last.handlers)
    if isinstance(last, ast.Match):
        return all(_leaves(c.body) for c in last.cases) and any(isinstance(c.pattern, ast.MatchAs) and c.pattern.pattern is None and c.guard is None for c in last.cases)
    return False


def _own_nodes(loop) -> List[ast.AST]:
    """nodes of the loop body that belong to this loop (not to a nested loop or function)"""
    out = []
    stack = list(loop.body)
    while stack:
        n = stack.pop()
        out.append(n)
        for c in ast.iter_child_nodes(n):
            if isinstance(c, (ast.FunctionDef, ast.AsyncFunctionDef, ast.Lambda, ast.ClassDef)):
                continue
            if isinstance(c, (ast.For, ast.While, ast.AsyncFor)):
                # a `continue`/`break` inside belongs to the inner loop; but its `return`s do not matter here
                continue
            stack.append(c)
    return out


def loop_once(fn) -> List[Tuple[ast.AST, str]]:
    res = []
    for n in ast.walk(fn):
        if not isinstance(n, (ast.For, ast.AsyncFor, ast.While)):
            continue
        if not _leaves(n.body):
            continue
        own = _own_nodes(n)
        if any(isinstance(x, ast.Continue) for x in own):
            continue
        decision = any(isinstance(x, (ast.If, ast.IfExp, ast.Try, ast.Match)) for x in own) or len(n.body) > 1
        if not decision:
            continue  # `for x in xs: return x` - deliberately the first element
        if isinstance(n, ast.While) and not (isinstance(n.test, ast.Constant) and n.test.value):
            # `while cond: ...; return` is an `if`; not this rule's business unless it is `while True`
            continue
        if isinstance(n, ast.While):
            continue  # `while True:` with all paths leaving is a block, not a loop over elements
        what = f"`for {norm(n.target)} in {norm(n.iter)[:50]}`: every path through the body leaves the loop in its first iteration (last statement `{norm(n.body[-1])[:60]}`), so only the first element is ever examined although the body decides per element"
        res.append((n, what))
    return res


def _paths_continue_after(loop, stmt_path: List[ast.stmt]) -> bool:
    """after the mutating statement, can control stay in the loop?  False when the statement list it sits in, or an
    enclosing one inside the loop, ends on every path in return / raise / break after it"""
    return True


def iter_mutate(fn) -> List[Tuple[ast.AST, str]]:
    res = []
    pm = {}
    for p in ast.walk(fn):
        for c in ast.iter_child_nodes(p):
            pm[c] = p
    for loop in ast.walk(fn):
        if not isinstance(loop, (ast.For, ast.AsyncFor)):
            continue
        it = loop.iter
        if not isinstance(it, (ast.Name, ast.Attribute)):
            continue  # list(C), C[:], sorted(C), C.items() of a copy ... iterate over something else
        itn = norm(it)
        for s in ast.walk(loop):
            hit = None
            if isinstance(s, ast.Call) and isinstance(s.func, ast.Attribute) and s.func.attr in _GROW_SHRINK and norm(s.func.value) == itn:
                hit = s
            elif isinstance(s, ast.Delete) and any(isinstance(t, ast.Subscript) and norm(t.value) == itn for t in s.targets):
                hit = s
            if hit is None:
                continue
            # leaves the loop right after on every path? walk up to the loop, asking of each enclosing statement
            # list whether what follows the statement ends the loop
            node, leaves = hit, False
            while node is not loop and node in pm:
                par = pm[node]
                for fld in ("body", "orelse", "finalbody"):
                    ss = getattr(par, fld, None)
                    if isinstance(ss, list) and node in ss:
                        rest = ss[ss.index(node) + 1 :]
                        if _leaves(rest) or isinstance(node, (ast.Return, ast.Raise, ast.Break)):
                            leaves = True
                if isinstance(par, (ast.For, ast.AsyncFor, ast.While)) and par is not loop:
                    break
                node = par
            if leaves:
                continue
            res.append((hit, f"`{norm(hit)[:70]}` changes the size of `{itn}` inside `for {norm(loop.target)} in {itn}` and iteration goes on: elements are skipped or visited twice"))
    return res


def qubit_truthy(fn) -> List[Tuple[ast.AST, str]]:
    """names that hold a qubit index: a parameter called dest (Optional qubit by the compiler's convention, checked
    against its annotation/default), or a local bound to add_qubit()/get_free_ancilla()/add_ancilla()/qc[...]"""
    if not isinstance(fn, (ast.FunctionDef, ast.AsyncFunctionDef)):
        return []
    qnames: Set[str] = set()
    a = fn.args
    defaults = dict(zip([x.arg for x in a.args[len(a.args) - len(a.defaults) :]], a.defaults))
    for arg in a.args + a.kwonlyargs:
        ann = norm(arg.annotation) if arg.annotation is not None else ""
        d = defaults.get(arg.arg)
        if arg.arg == "dest" and (ann in ("", "Optional[int]", "int", "int | None") or (isinstance(d, ast.Constant) and d.value is None)):
            qnames.add(arg.arg)
    for n in ast.walk(fn):
        if isinstance(n, ast.Assign) and len(n.targets) == 1 and isinstance(n.targets[0], ast.Name):
            v = n.value
            if isinstance(v, ast.Call) and isinstance(v.func, ast.Attribute) and v.func.attr in _QUBIT_SOURCES:
                qnames.add(n.targets[0].id)
            elif isinstance(v, ast.Subscript) and isinstance(v.value, ast.Name) and v.value.id in ("qc", "qubit_map"):
                qnames.add(n.targets[0].id)
    if not qnames:
        return []

    def uses(e):
        if isinstance(e, ast.Name) and e.id in qnames:
            yield e
        elif isinstance(e, ast.UnaryOp) and isinstance(e.op, ast.Not):
            yield from uses(e.operand)
        elif isinstance(e, ast.BoolOp):
            for v in e.values:
                yield from uses(v)

    res = []
    seen = set()
    for n in ast.walk(fn):
        tests = []
        if isinstance(n, (ast.If, ast.While, ast.IfExp)):
            tests.append(n.test)
        elif isinstance(n, ast.BoolOp):
            tests.extend(n.values[:-1])
        elif isinstance(n, ast.Assert):
            tests.append(n.test)
        for t in tests:
            for u in uses(t):
                if id(u) in seen:
                    continue
                seen.add(id(u))
                res.append((u, f"`{norm(t)[:60]}` uses the qubit index `{u.id}` as a truth value: qubit 0 is a valid index and is treated like `None` (compare with `is None`)"))
    return res


_INPLACE = {"append", "extend", "insert", "remove", "pop", "clear", "sort", "reverse", "update", "add", "discard", "setdefault", "popitem"}


def default_mutated(fn) -> List[Tuple[ast.AST, str]]:
    """a parameter whose default is a list/dict/set display (one object shared by every call that omits the argument)
    and which the body changes in place before re-binding it"""
    if not isinstance(fn, (ast.FunctionDef, ast.AsyncFunctionDef)):
        return []
    a = fn.args
    pos = a.posonlyargs + a.args
    pairs = list(zip(pos[len(pos) - len(a.defaults) :], a.defaults)) + [(k, d) for k, d in zip(a.kwonlyargs, a.kw_defaults) if d is not None]
    res = []
    for arg, dv in pairs:
        mutable = isinstance(dv, (ast.List, ast.Dict, ast.Set, ast.ListComp, ast.DictComp, ast.SetComp)) or (isinstance(dv, ast.Call) and isinstance(dv.func, ast.Name) and dv.func.id in ("list", "dict", "set", "defaultdict", "OrderedDict", "deque"))
        if not mutable:
            continue
        name = arg.arg
        rebound_at = None
        events = []
        for n in ast.walk(fn):
            if isinstance(n, (ast.FunctionDef, ast.AsyncFunctionDef, ast.Lambda)) and n is not fn:
                continue
            ln = getattr(n, "lineno", None)
            if isinstance(n, ast.Assign) and any(isinstance(t, ast.Name) and t.id == name for t in n.targets):
                rebound_at = ln if rebound_at is None else min(rebound_at, ln)
            if isinstance(n, ast.Call) and isinstance(n.func, ast.Attribute) and isinstance(n.func.value, ast.Name) and n.func.value.id == name and n.func.attr in _INPLACE:
                events.append((ln, n, f".{n.func.attr}()"))
            if isinstance(n, ast.AugAssign) and isinstance(n.target, ast.Name) and n.target.id == name:
                events.append((ln, n, "augmented assignment (in place for lists, sets and dicts)"))
            if isinstance(n, (ast.Assign, ast.AugAssign, ast.Delete)):
                tgts = n.targets if isinstance(n, (ast.Assign, ast.Delete)) else [n.target]
                for t in tgts:
                    if isinstance(t, ast.Subscript) and isinstance(t.value, ast.Name) and t.value.id == name:
                        events.append((ln, n, "item assignment / deletion"))
        for ln, n, how in sorted(events, key=lambda t: t[0] or 0):
            if rebound_at is not None and ln is not None and ln > rebound_at:
                continue
            res.append((n, f"`{norm(n)[:60]}` changes the default object of `{name}={norm(dv)}` by {how}: the default is created once and shared by every call that omits the argument, so what one call adds is still there in the next"))
            break
    return res


def subs_sequential(fn) -> List[Tuple[ast.AST, str]]:
    """sympy's `e.subs(mapping)` applies the pairs one after another (unless simultaneous=True): a key occurring in
    the image of an earlier pair is substituted again.  Fires when the mapping is built in this function and its
    images are expressions taken from the same table of expressions (not constants, not fresh symbols)."""
    res = []
    binds = {}
    for n in ast.walk(fn):
        if isinstance(n, ast.Assign) and len(n.targets) == 1 and isinstance(n.targets[0], ast.Name):
            binds.setdefault(n.targets[0].id, []).append(n.value)
    for c in ast.walk(fn):
        if not (isinstance(c, ast.Call) and isinstance(c.func, ast.Attribute) and c.func.attr == "subs" and len(c.args) == 1):
            continue
        if any(k.arg == "simultaneous" and isinstance(k.value, ast.Constant) and k.value.value is True for k in c.keywords):
            continue
        m = c.args[0]
        if isinstance(m, ast.Name) and len(binds.get(m.id, [])) == 1:
            m = binds[m.id][0]
        vals = None
        if isinstance(m, ast.Dict) and len(m.keys) > 1 and all(k is not None for k in m.keys):
            vals = list(m.values)
        elif isinstance(m, ast.DictComp):
            vals = [m.value]
        elif isinstance(m, (ast.ListComp, ast.GeneratorExp)) and isinstance(m.elt, ast.Tuple) and len(m.elt.elts) == 2:
            vals = [m.elt.elts[1]]
        if not vals:
            continue

        def is_plain(v) -> bool:
            if isinstance(v, ast.Constant):
                return True
            if isinstance(v, ast.Name) and v.id in ("true", "false", "BooleanTrue", "BooleanFalse"):
                return True
            if isinstance(v, ast.Call) and isinstance(v.func, ast.Name) and v.func.id in ("Symbol", "BooleanTrue", "BooleanFalse", "bool", "Dummy"):
                return True
            return False

        bad = [v for v in vals if not is_plain(v)]
        if bad:
            res.append((c, f"`{norm(c)[:70]}` substitutes the pairs of a mapping one after another and the images (`{norm(bad[0])[:40]}`) are expressions: a symbol that is both a key and part of an earlier image is substituted a second time (use xreplace or simultaneous=True)"))
    return res


def gates_index_by_count(fn) -> List[Tuple[ast.AST, str]]:
    """`X.gates` holds every applied gate, barriers and other no-ops included; `X.num_gates` counts the gates that
    are not no-ops (check() confirms that from the property's definition before arming the rule).  An index or slice
    bound into the list computed from the count is off by the number of barriers before it."""
    binds = {}
    for n in ast.walk(fn):
        if isinstance(n, ast.Assign):
            tgts, vals = [], []
            for t in n.targets:
                if isinstance(t, ast.Name):
                    tgts.append(t.id); vals.append(n.value)
                elif isinstance(t, ast.Tuple) and isinstance(n.value, ast.Tuple) and len(t.elts) == len(n.value.elts):
                    for a, b in zip(t.elts, n.value.elts):
                        if isinstance(a, ast.Name):
                            tgts.append(a.id); vals.append(b)
            for a, b in zip(tgts, vals):
                binds.setdefault(a, []).append(b)

    def from_count(e, depth=0) -> bool:
        for x in ast.walk(e):
            if isinstance(x, ast.Attribute) and x.attr == "num_gates":
                return True
            if isinstance(x, ast.Name) and depth < 3 and len(binds.get(x.id, [])) == 1 and from_count(binds[x.id][0], depth + 1):
                return True
        return False

    res = []
    for n in ast.walk(fn):
        if isinstance(n, ast.Subscript) and isinstance(n.value, ast.Attribute) and n.value.attr in ("gates",) and from_count(n.slice):
            res.append((n, f"`{norm(n)[:70]}` positions into the gate list by a count of `num_gates`, which leaves out barriers / no-op gates that the list contains: with a barrier in the circuit the position falls short by one per barrier"))
    return res


_BINDERS = ("Assign", "AugAssign", "AnnAssign", "For")


def name_binders(fn) -> List[Tuple[ast.AST, str]]:
    """a function that walks a syntax tree and returns the set of names bound in it, enumerating the binding statement
    kinds by isinstance: `x += 1` re-binds x just like `x = x + 1` does, and `for x in ...` binds x - a collector
    that knows `Assign` and some but not all of the other kinds reports a name as never re-bound when it is."""
    if not isinstance(fn, (ast.FunctionDef, ast.AsyncFunctionDef)):
        return []
    kinds = set()
    first = None
    for n in ast.walk(fn):
        if isinstance(n, ast.Call) and isinstance(n.func, ast.Name) and n.func.id == "isinstance" and len(n.args) == 2:
            cl = n.args[1].elts if isinstance(n.args[1], ast.Tuple) else [n.args[1]]
            for c in cl:
                if isinstance(c, ast.Attribute) and isinstance(c.value, ast.Name) and c.value.id == "ast" and c.attr in _BINDERS:
                    kinds.add(c.attr)
                    first = first or n
    if "Assign" not in kinds or len(kinds) < 2 or kinds >= set(_BINDERS):
        return []
    src = norm(fn)
    reads_targets = ".targets" in src or ".target" in src
    # the result is a collection of names: a returned name bound to an empty set/list/dict that ids are added to
    rets = [r.value for r in ast.walk(fn) if isinstance(r, ast.Return) and r.value is not None]
    coll = None
    for r in rets:
        if isinstance(r, ast.Name):
            for a in ast.walk(fn):
                if isinstance(a, ast.Assign) and any(isinstance(t, ast.Name) and t.id == r.id for t in a.targets):
                    v = a.value
                    if (isinstance(v, ast.Call) and isinstance(v.func, ast.Name) and v.func.id in ("set", "list", "dict") and not v.args) or isinstance(v, (ast.List, ast.Set, ast.Dict)) and not getattr(v, "elts", getattr(v, "keys", [])):
                        coll = r.id
    if not reads_targets or coll is None or ".id" not in src:
        return []
    missing = [k for k in _BINDERS if k not in kinds]
    return [(first, f"collects the names bound in a tree from {sorted(kinds)} but not from {missing}: a name re-bound only by {' / '.join('`x += 1`' if k == 'AugAssign' else ('`x: T = v`' if k == 'AnnAssign' else '`for x in ...`') for k in missing)} is reported as never re-bound")]


def stale_precedence(fn) -> List[Tuple[ast.AST, str]]:
    """a scan over a definition list `for s, e in defs:` that records each definition in a table D (`D[s] = ...`) and
    resolves the symbols of `e` through D *and* a loop-invariant table A: the latest definition of a symbol is the
    one in D; a lookup that asks A first (`A[x] if x in A else D[x]`) resolves a symbol that was re-defined earlier
    in the list to its initial binding."""
    res = []
    for loop in ast.walk(fn):
        if not (isinstance(loop, ast.For) and isinstance(loop.target, ast.Tuple) and len(loop.target.elts) == 2 and isinstance(loop.target.elts[0], ast.Name)):
            continue
        sname = loop.target.elts[0].id
        running = set()
        for n in ast.walk(loop):
            if isinstance(n, ast.Assign):
                for t in n.targets:
                    if isinstance(t, ast.Subscript) and isinstance(t.value, ast.Name) and sname in {x.id for x in ast.walk(t.slice) if isinstance(x, ast.Name)}:
                        running.add(t.value.id)
        if not running:
            continue
        stored = {t.value.id for n in ast.walk(loop) if isinstance(n, ast.Assign) for t in n.targets if isinstance(t, ast.Subscript) and isinstance(t.value, ast.Name)}
        for n in ast.walk(loop):
            if not isinstance(n, ast.IfExp):
                continue
            t = n.test
            neg = False
            while isinstance(t, ast.UnaryOp) and isinstance(t.op, ast.Not):
                t, neg = t.operand, not neg
            if not (isinstance(t, ast.Compare) and len(t.ops) == 1 and isinstance(t.ops[0], (ast.In, ast.NotIn)) and isinstance(t.comparators[0], ast.Name)):
                continue
            if isinstance(t.ops[0], ast.NotIn):
                neg = not neg
            tbl = t.comparators[0].id
            hit, miss = (n.orelse, n.body) if neg else (n.body, n.orelse)
            def reads(e, name):
                return any(isinstance(x, ast.Subscript) and isinstance(x.value, ast.Name) and x.value.id == name for x in ast.walk(e)) or any(isinstance(x, ast.Call) and isinstance(x.func, ast.Attribute) and x.func.attr == "get" and isinstance(x.func.value, ast.Name) and x.func.value.id == name for x in ast.walk(e))
            if tbl not in stored and reads(hit, tbl):
                for d in sorted(running):
                    if reads(miss, d):
                        res.append((n, f"`{norm(n)[:80]}` asks the loop-invariant table `{tbl}` before `{d}`, the table of the definitions made so far (`{d}[{sname}] = ...`): a symbol that an earlier definition of the list re-bound (a callee assigning to its own parameter) is resolved to its initial binding, not to its latest definition"))
                        break
    return res


# one symbol, one reason
_TRUTHY_EXEMPT = {
    ("decode_counts", "discard_lower"): "a threshold of 0 discards nothing, exactly like no threshold",
}


def truthy_optional(fn) -> List[Tuple[ast.AST, str]]:
    """a parameter declared Optional[int|bool|float|Any] (or Any) with default None, asked for its truth value: the
    values 0 / False / 0.0 are legitimate arguments and are treated as "not given" """
    if not isinstance(fn, (ast.FunctionDef, ast.AsyncFunctionDef)):
        return []
    a = fn.args
    pos = a.posonlyargs + a.args
    pairs = list(zip(pos[len(pos) - len(a.defaults) :], a.defaults)) + [(k, d) for k, d in zip(a.kwonlyargs, a.kw_defaults) if d is not None]
    opt = {}
    for arg, d in pairs:
        if not (isinstance(d, ast.Constant) and d.value is None) or arg.annotation is None:
            continue
        ann = norm(arg.annotation).replace(" ", "")
        inner = ann[len("Optional[") : -1] if ann.startswith("Optional[") and ann.endswith("]") else (ann if ann in ("Any",) else None)
        if inner is None and ann.endswith("|None"):
            inner = ann[: -len("|None")]
        if inner in ("int", "bool", "float", "Any", "Qtype", "Union[int,bool]", "Union[bool,int]"):
            opt[arg.arg] = ann
    if not opt:
        return []

    def uses(e):
        if isinstance(e, ast.Name) and e.id in opt:
            yield e
        elif isinstance(e, ast.UnaryOp) and isinstance(e.op, ast.Not):
            yield from uses(e.operand)
        elif isinstance(e, ast.BoolOp):
            for v in e.values:
                yield from uses(v)

    res, seen = [], set()
    for n in ast.walk(fn):
        tests = []
        if isinstance(n, (ast.If, ast.While, ast.IfExp)):
            tests.append(n.test)
        elif isinstance(n, ast.BoolOp):
            tests.extend(n.values[:-1])
        for t in tests:
            for u in uses(t):
                if id(u) in seen or (fn.name, u.id) in _TRUTHY_EXEMPT:
                    continue
                seen.add(id(u))
                res.append((u, f"`{norm(t)[:60]}` asks for the truth value of `{u.id}: {opt[u.id]} = None`: the arguments 0 / False / 0.0 are legitimate values and are treated as if the argument had been omitted (compare with `is None`)"))
    return res


def shifted_not_summed(fn) -> List[Tuple[ast.AST, str]]:
    """`starts = [0] + sizes[:-1]` gives each element the size of its predecessor as its start; the start of element
    i is the SUM of the sizes before it.  The two agree for at most two elements.  Fires when `sizes` is a plain list
    of sizes (not a running sum) and the result is used as the lower bound of a slice."""
    binds = {}
    for n in ast.walk(fn):
        if isinstance(n, ast.Assign) and len(n.targets) == 1 and isinstance(n.targets[0], ast.Name):
            binds.setdefault(n.targets[0].id, []).append(n.value)

    def shifted(v):
        """the name S when v is `[0] + S[:-1]` (or with list(...) around the slice) and S is not a running sum"""
        if not (isinstance(v, ast.BinOp) and isinstance(v.op, ast.Add) and isinstance(v.left, ast.List) and len(v.left.elts) == 1 and isinstance(v.left.elts[0], ast.Constant) and v.left.elts[0].value == 0):
            return None
        r = v.right
        if isinstance(r, ast.Call) and isinstance(r.func, ast.Name) and r.func.id == "list" and len(r.args) == 1:
            r = r.args[0]
        if not (isinstance(r, ast.Subscript) and isinstance(r.slice, ast.Slice) and r.slice.lower is None and r.slice.step is None and isinstance(r.slice.upper, ast.UnaryOp) and isinstance(r.slice.upper.op, ast.USub) and isinstance(r.slice.upper.operand, ast.Constant) and r.slice.upper.operand.value == 1 and isinstance(r.value, ast.Name)):
            return None
        src = r.value.id
        if len(binds.get(src, [])) != 1:
            return None
        if any(isinstance(x, ast.Call) and (norm(x.func).split(".")[-1] in ("accumulate", "cumsum")) for x in ast.walk(binds[src][0])):
            return None
        return src

    cands = []  # (expression node, names that hold one of its elements or the list itself)
    for n in ast.walk(fn):
        if isinstance(n, ast.BinOp) and shifted(n) is not None:
            cands.append(n)
    res = []
    for v in cands:
        names, elems = set(), set()
        for nm, vals in binds.items():
            if any(x is v for x in vals):
                names.add(nm)
        for n in ast.walk(fn):
            gens = n.generators if isinstance(n, (ast.ListComp, ast.GeneratorExp, ast.SetComp, ast.DictComp)) else ([n] if isinstance(n, ast.For) else [])
            for g in gens:
                it, tg = g.iter, g.target
                if isinstance(it, ast.Call) and isinstance(it.func, ast.Name) and it.func.id == "zip" and isinstance(tg, ast.Tuple) and len(tg.elts) == len(it.args):
                    for a_, t_ in zip(it.args, tg.elts):
                        if isinstance(t_, ast.Name) and (a_ is v or (isinstance(a_, ast.Name) and a_.id in names)):
                            elems.add(t_.id)
                elif isinstance(tg, ast.Name) and (it is v or (isinstance(it, ast.Name) and it.id in names)):
                    elems.add(tg.id)
        used = False
        for n in ast.walk(fn):
            if isinstance(n, ast.Subscript) and isinstance(n.slice, ast.Slice) and n.slice.lower is not None:
                low = n.slice.lower
                if any(isinstance(x, ast.Name) and x.id in elems for x in ast.walk(low)) or any(isinstance(x, ast.Subscript) and isinstance(x.value, ast.Name) and x.value.id in names for x in ast.walk(low)):
                    used = True
        if used:
            res.append((v, f"`{norm(v)[:50]}` takes the size of the preceding element as each start offset; the offset of element i is the sum of ALL sizes before it - from the third element on the slices overlap / fall short"))
    return res


def name_order(fn) -> List[Tuple[ast.AST, str]]:
    """bit and qubit names end in decimal indices (`a.10`, `_ret.2`, `q11`): sorted as text, `x.10` comes before `x.2`.
    Fires on sorted(..) / .sort(..) whose key is a `.name`, or whose operand is a `.bitvec` / the keys of a
    `qubit_map`, without a numeric key - the result is in index order only up to ten elements."""
    res = []
    for c in ast.walk(fn):
        if not isinstance(c, ast.Call):
            continue
        nm = c.func.id if isinstance(c.func, ast.Name) else (c.func.attr if isinstance(c.func, ast.Attribute) else None)
        if nm not in ("sorted", "sort"):
            continue
        key = next((k.value for k in c.keywords if k.arg == "key"), None)
        operand = c.args[0] if (nm == "sorted" and c.args) else (c.func.value if isinstance(c.func, ast.Attribute) else None)
        kt = norm(key) if key is not None else ""
        if "int(" in kt or "index" in kt:
            continue
        by_name = key is not None and isinstance(key, ast.Lambda) and any(isinstance(x, ast.Attribute) and x.attr == "name" for x in ast.walk(key.body))
        ot = norm(operand) if operand is not None else ""
        names_operand = key is None and (ot.endswith(".bitvec") or "qubit_map" in ot)
        if by_name or names_operand:
            res.append((c, f"`{norm(c)[:70]}` orders bit / qubit names as text: `x.10` sorts before `x.2` and `q10` before `q2`, so from the eleventh element on the order is not the index order that positional consumers (return bits, qubit lists, gate wires) assume"))
    return res


RULES = (
    ("NAME-ORDER", name_order, "bit and qubit names are never ordered as text"),
    ("OFFSET-SUM", shifted_not_summed, "start offsets are running sums of the sizes"),
    ("TRUTHY-OPTIONAL", truthy_optional, "an optional value argument is compared with None, never asked for its truth value"),
    ("STALE-PRECEDENCE", stale_precedence, "the latest definition of a symbol takes precedence over its initial binding"),
    ("NAME-BINDERS", name_binders, "a collector of re-bound names knows every binding statement kind"),
    ("COUNT-INDEX", gates_index_by_count, "positions in the gate list are computed from its length, not from the no-op-free gate count"),
    ("SUBS-SEQUENTIAL", subs_sequential, "a multi-pair substitution of expressions is simultaneous"),
    ("DEFAULT-MUTATED", default_mutated, "a default argument object is not changed in place"),
    ("LOOP-ONCE", loop_once, "a loop that decides per element reaches its second element"),
    ("ITER-MUTATE", iter_mutate, "a collection is not resized while it is iterated"),
    ("QUBIT-TRUTHY", qubit_truthy, "a qubit index is compared with None, never used as a truth value"),
)

POSITIVE = {
    "NAME-ORDER": """
def to_logicfun(self):
    rets = [e for e in self.expressions if e[0].name in self.returns.bitvec]
    rets.sort(key=lambda e: e[0].name)
    return rets
""",
    "OFFSET-SUM": """
def decode(out, targs):
    sizes = [size_of(x) for x in targs]
    starts = [0] + sizes[:-1]
    return tuple(interp(out[s : s + ln], x) for x, s, ln in zip(targs, starts, sizes))
""",
    "TRUTHY-OPTIONAL": """
def search(self, oracle, element_to_search: Optional[Any] = None):
    self.oracle = oraclize(oracle, element_to_search) if element_to_search else oracle
""",
    "STALE-PRECEDENCE": """
def compress(deff, arg_bits):
    d_exp = {}
    out = []
    for s, e in deff:
        new_e = e.xreplace({x: arg_bits[x] if x in arg_bits else d_exp[x] for x in e.free_symbols})
        d_exp[s] = new_e
        out.append((s, new_e))
    return out
""",
    "NAME-BINDERS": """
def assigned_names(fun_def):
    names = set()
    for node in ast.walk(fun_def):
        if isinstance(node, ast.Assign):
            for t in node.targets:
                names.update(n.id for n in ast.walk(t) if isinstance(n, ast.Name))
        elif isinstance(node, (ast.AnnAssign, ast.For)):
            names.update(n.id for n in ast.walk(node.target) if isinstance(n, ast.Name))
    return names
""",
    "COUNT-INDEX": """
def repeat(self, n):
    n_qc = self.copy()
    n_gates, n_computed = self.num_gates, len(self.gates_computed)
    del n_qc.gates[n * n_gates :]
    return n_qc
""",
    "SUBS-SEQUENTIAL": """
def target_value(exps, controls, target):
    current = {c: exps[c] for c in controls}
    return And(*controls).subs(current)
""",
    "DEFAULT-MUTATED": """
def sandwich(self, f_circuit, n, prepare=[]):
    prepare += [n]
    return prepare
""",
    "LOOP-ONCE": """
def is_input(self, symbol):
    for arg in self.args:
        if symbol.name in arg.bitvec:
            return True
        return False
""",
    "ITER-MUTATE": """
def drop_marked(self):
    for a in self.marked:
        if a in self.free:
            self.marked.remove(a)
""",
    "QUBIT-TRUTHY": """
def compile_thing(self, qc, expr, dest=None):
    d = dest or qc.get_free_ancilla()
    return d
""",
}

NEGATIVE = {
    "NAME-ORDER": """
def to_logicfun(self):
    rets = [e for e in self.expressions if e[0].name in self.returns.bitvec]
    rets.sort(key=lambda e: int(e[0].name.split('.')[-1]))
    sizes = sorted(len(a) for a in self.args)
    return rets, sizes
""",
    "OFFSET-SUM": """
def decode(out, targs):
    sizes = [size_of(x) for x in targs]
    ends = list(accumulate(sizes))
    starts = [0] + ends[:-1]
    prev = [0] + sizes[:-1]
    return tuple(interp(out[s : s + ln], x) for x, s, ln in zip(targs, starts, sizes)), prev
""",
    "TRUTHY-OPTIONAL": """
def search(self, oracle, element_to_search: Optional[Any] = None, name: Optional[str] = None, discard_lower=None):
    self.oracle = oraclize(oracle, element_to_search) if element_to_search is not None else oracle
    if name or discard_lower:
        pass
""",
    "STALE-PRECEDENCE": """
def compress(deff, arg_bits):
    d_exp = {}
    out = []
    for s, e in deff:
        new_e = e.xreplace({x: d_exp[x] if x in d_exp else arg_bits[x] for x in e.free_symbols})
        d_exp[s] = new_e
        out.append((s, new_e))
    return out
""",
    "NAME-BINDERS": """
def assigned_names(fun_def):
    names = set()
    for node in ast.walk(fun_def):
        if isinstance(node, ast.Assign):
            for t in node.targets:
                names.update(n.id for n in ast.walk(t) if isinstance(n, ast.Name))
        elif isinstance(node, (ast.AnnAssign, ast.For, ast.AugAssign)):
            names.update(n.id for n in ast.walk(node.target) if isinstance(n, ast.Name))
    return names
""",
    "COUNT-INDEX": """
def repeat(self, n):
    n_qc = self.copy()
    n_gates = len(self.gates)
    del n_qc.gates[n * n_gates :]
    print(self.num_gates)
    return n_qc
""",
    "SUBS-SEQUENTIAL": """
def target_value(exps, controls, target, known):
    current = {c: exps[c] for c in controls}
    a = And(*controls).xreplace(current)
    b = a.subs(current, simultaneous=True)
    c = b.subs({x: True for x in controls})
    return c.subs(known)
""",
    "DEFAULT-MUTATED": """
def sandwich(self, f_circuit, n, prepare=[], other=None):
    prepare = list(prepare)
    prepare += [n]
    for p in prepare:
        other.append(p)
    return prepare
""",
    "LOOP-ONCE": """
def first(self, xs):
    for x in xs:
        return x
    for y in xs:
        if y:
            continue
        return y
    for z in xs:
        if z:
            return z
    return None
""",
    "ITER-MUTATE": """
def drop_one(self):
    for a in self.marked:
        if a in self.free:
            self.marked.remove(a)
            break
    for b in list(self.marked):
        self.marked.remove(b)
""",
    "QUBIT-TRUTHY": """
def compile_thing(self, qc, expr, dest=None):
    d = qc.get_free_ancilla() if dest is None else dest
    return d
""",
}


def class_mutable(cls_node: ast.ClassDef) -> List[Tuple[ast.AST, str]]:
    """a list/dict/set created in the class body is ONE object shared by every instance; a method that changes it in
    place through `self.<attr>` (and no method gives the instance its own: `self.<attr> = ...`) leaks state from one
    object into all others"""
    attrs = {}
    for s_ in cls_node.body:
        tg = v = None
        if isinstance(s_, ast.Assign) and len(s_.targets) == 1 and isinstance(s_.targets[0], ast.Name):
            tg, v = s_.targets[0].id, s_.value
        elif isinstance(s_, ast.AnnAssign) and isinstance(s_.target, ast.Name) and s_.value is not None:
            tg, v = s_.target.id, s_.value
        if tg and (isinstance(v, (ast.List, ast.Dict, ast.Set, ast.ListComp, ast.DictComp, ast.SetComp)) or (isinstance(v, ast.Call) and isinstance(v.func, ast.Name) and v.func.id in ("list", "dict", "set", "defaultdict", "OrderedDict", "deque"))):
            attrs[tg] = s_
    if not attrs:
        return []
    rebound = set()
    for n in ast.walk(cls_node):
        if isinstance(n, (ast.Assign, ast.AnnAssign)):
            for t in (n.targets if isinstance(n, ast.Assign) else [n.target]):
                if isinstance(t, ast.Attribute) and isinstance(t.value, ast.Name) and t.value.id == "self" and t.attr in attrs and getattr(n, "value", None) is not None:
                    rebound.add(t.attr)
    res = []
    for n in ast.walk(cls_node):
        hit = None
        if isinstance(n, ast.Call) and isinstance(n.func, ast.Attribute) and n.func.attr in _INPLACE and isinstance(n.func.value, ast.Attribute) and isinstance(n.func.value.value, ast.Name) and n.func.value.value.id in ("self", "cls") and n.func.value.attr in attrs:
            hit = (n, n.func.value.attr)
        elif isinstance(n, (ast.Assign, ast.AugAssign, ast.Delete)):
            for t in (n.targets if isinstance(n, (ast.Assign, ast.Delete)) else [n.target]):
                if isinstance(t, ast.Subscript) and isinstance(t.value, ast.Attribute) and isinstance(t.value.value, ast.Name) and t.value.value.id in ("self", "cls") and t.value.attr in attrs:
                    hit = (n, t.value.attr)
                if isinstance(n, ast.AugAssign) and isinstance(t, ast.Attribute) and isinstance(t.value, ast.Name) and t.value.id == "self" and t.attr in attrs:
                    hit = (n, t.attr)
        if hit and hit[1] not in rebound:
            res.append((hit[0], f"`{norm(hit[0])[:70]}` changes `{hit[1]}`, which is created once in the body of class {cls_node.name} (`{norm(attrs[hit[1]])[:50]}`) and never re-created per instance: every {cls_node.name} object shares it, so what one object stores is seen by all others"))
            attrs.pop(hit[1])
            if not attrs:
                break
    return res


_CLASS_POS = """
class QlassF:
    _models: Dict[str, Any] = {}

    def to_bqm(self, fmt):
        if fmt not in self._models:
            self._models[fmt] = build(self, fmt)
        return self._models[fmt]
"""
_CLASS_NEG = """
class QlassF:
    _models: Dict[str, Any] = {}
    KINDS = ["a", "b"]

    def __init__(self):
        self._models = {}

    def to_bqm(self, fmt):
        if fmt not in self._models:
            self._models[fmt] = build(self, fmt)
        return [k for k in self.KINDS]
"""


def check(ctx, pid: Optional[str] = None, prefixes: Optional[Tuple[str, ...]] = None):
    """one obligation per rule for the scan (with the number of functions scanned), a violation per instance"""
    pid = pid or ctx.prop
    prefixes = prefixes or scope_of(pid)
    try:
        import importlib

        extra = getattr(importlib.import_module(f"qv.props.{pid.lower()}"), "LINT_EXTRA", ())
    except ModuleNotFoundError:
        extra = ()
    prefixes = tuple(prefixes) + tuple(extra)
    for rule, fn, _ in RULES:
        pos = [n for n in ast.parse(POSITIVE[rule]).body if isinstance(n, ast.FunctionDef)][0]
        neg = [n for n in ast.parse(NEGATIVE[rule]).body if isinstance(n, ast.FunctionDef)][0]
        if len(fn(pos)) != 1 or fn(neg):
            raise AnchorError(f"lints.{rule}", "the rule no longer separates its own positive and negative example")
    funcs = [fi for fi in ctx.repo.functions.values() if fi.module is not None and any((fi.short + ".").startswith(p) for p in prefixes)]
    # hub modules serve many unrelated properties (QlassF, QCircuit, the types package): there only the functions the
    # property's anchors name are in scope (C10, purity of everything, keeps the whole module)
    words = _anchor_words(pid)
    if pid != "C10" and words:
        funcs = [fi for fi in funcs if not any(fi.short.startswith(h) for h in _HUBS) or _in_words(fi, words) or any((fi.short + ".").startswith(x) for x in extra)]
    # functions that are not in the reference inventory (new helpers) and are called, by name, from code in scope:
    # a mechanism moved into a helper elsewhere in the package stays under the rules of the property it serves
    try:
        with open(os.path.join(HERE, "qv", "functions.json")) as fh:
            known = set(json.load(fh))
    except OSError:
        known = None
    if known is not None:
        new_fns = [fi for fi in ctx.repo.functions.values() if fi.module is not None and fi.qualname not in known and fi not in funcs]
        # helpers the normaliser inlined into a function no longer show as calls there: its log says where they went
        import re as _re

        inlined_into = {}
        for line in getattr(ctx.repo, "normalized", []):
            m_ = _re.match(r"^(\S+): inlined new (?:expression )?helper (\w+)", line)
            if m_:
                inlined_into.setdefault(m_.group(1), set()).add(m_.group(2))
        changed = True
        while changed and new_fns:
            changed = False
            called = set()
            for fi in funcs:
                called |= inlined_into.get(fi.qualname, set())
                for n in ast.walk(fi.node):
                    if isinstance(n, ast.Call):
                        f = n.func
                        called.add(f.attr if isinstance(f, ast.Attribute) else (f.id if isinstance(f, ast.Name) else None))
            for nf in list(new_fns):
                if nf.name in called:
                    funcs.append(nf)
                    new_fns.remove(nf)
                    changed = True
    if len(funcs) < 3:
        raise AnchorError(f"lints.scope[{pid}]", f"only {len(funcs)} functions under {prefixes}: the anchored modules were not found")
    for rule, fn, role in RULES:
        hits = 0
        if rule == "COUNT-INDEX":
            ng = ctx.repo.maybe_func("qcircuit.qcircuit.QCircuit.num_gates")
            if ng is None:
                raise AnchorError("qcircuit.qcircuit.QCircuit.num_gates", "not found")
            if not any(t in norm(ng.node) for t in ("is_nop", "NopGate")):
                ctx.ok(rule, None, role, "num_gates no longer filters no-op gates: count and length agree", construct="qcircuit.qcircuit.QCircuit.num_gates")
                continue
        for fi in funcs:
            # nested functions are FuncInfos of their own: scan only this function's own statements
            for node, what in _scan_own(fi, fn):
                hits += 1
                ctx.fail(rule, fi, role, what, node)
        if not hits:
            ctx.ok(rule, None, role, f"{len(funcs)} functions of the anchored modules scanned, 0 instances; positive example fires, negative example silent", construct="/".join(p.rstrip(".") for p in prefixes))
    _check_classes(ctx, funcs)
    rule, role = "MODULE-STATE", "no function changes a module-level container"
    hits = 0
    for fi in funcs:
        for node, what in module_state_writes(fi):
            hits += 1
            ctx.fail(rule, fi, role, what, node)
    if not hits:
        ctx.ok(rule, None, role, f"{len(funcs)} functions scanned, 0 writes to module-level containers", construct="/".join(p.rstrip(".") for p in prefixes))


def module_state_writes(fi: FuncInfo) -> List[Tuple[ast.AST, str]]:
    """a function that changes a module-level container (a dict / list / set created at import time): item store,
    in-place method, `global` re-binding.  Whatever it keeps there is shared by every later call in the process -
    instances handed out twice, results that depend on what was computed before."""
    m = fi.module
    if m is None or isinstance(fi.node, ast.Lambda):
        return []
    tables = {}
    for nm, v in m.globals_assigned.items():
        if isinstance(v, (ast.Dict, ast.List, ast.Set)) or (isinstance(v, ast.Call) and isinstance(v.func, ast.Name) and v.func.id in ("dict", "list", "set", "defaultdict", "OrderedDict", "deque", "WeakValueDictionary") and not v.args):
            tables[nm] = v
    if not tables:
        return []
    local = set(fi.all_params)
    for n in ast.walk(fi.node):
        if isinstance(n, ast.Assign):
            for t in n.targets:
                for x in ast.walk(t):
                    if isinstance(x, ast.Name) and isinstance(x.ctx, ast.Store):
                        local.add(x.id)
    globs = {nm for n in ast.walk(fi.node) if isinstance(n, ast.Global) for nm in n.names}
    local -= globs
    res = []
    for n in ast.walk(fi.node):
        hit = None
        if isinstance(n, (ast.Assign, ast.AugAssign, ast.Delete)):
            for t in (n.targets if isinstance(n, (ast.Assign, ast.Delete)) else [n.target]):
                if isinstance(t, ast.Subscript) and isinstance(t.value, ast.Name) and t.value.id in tables and t.value.id not in local:
                    hit = (n, t.value.id, "item store")
                if isinstance(t, ast.Name) and t.id in tables and t.id in globs:
                    hit = (n, t.id, "`global` re-binding")
        elif isinstance(n, ast.Call) and isinstance(n.func, ast.Attribute) and n.func.attr in _INPLACE and isinstance(n.func.value, ast.Name) and n.func.value.id in tables and n.func.value.id not in local:
            hit = (n, n.func.value.id, f".{n.func.attr}()")
        if hit:
            res.append((hit[0], f"`{norm(hit[0])[:70]}` changes the module-level `{hit[1]}` ({hit[2]}), created once at import time: what is kept there is shared by every later call in the process (one instance handed to several users, results that depend on what ran before)"))
            break
    return res


_MODSTATE_POS = """
_exporters = {}

def get_exporter(framework):
    if framework not in _exporters:
        _exporters[framework] = make(framework)
    return _exporters[framework]
"""


def _check_classes(ctx, funcs):
    rule, role = "CLASS-MUTABLE", "a container created in a class body is not changed through an instance"
    if len(class_mutable(ast.parse(_CLASS_POS).body[0])) != 1 or class_mutable(ast.parse(_CLASS_NEG).body[0]):
        raise AnchorError(f"lints.{rule}", "the rule no longer separates its own positive and negative example")
    seen, hits = set(), 0
    for fi in funcs:
        c = fi.cls
        if c is None or c.qualname in seen:
            continue
        seen.add(c.qualname)
        for node, what in class_mutable(c.node):
            hits += 1
            owner = next((m for m in c.methods.values() if any(x is node for x in ast.walk(m.node))), None)
            if owner is not None and owner not in funcs:
                continue  # the method that changes the shared object serves another property
            ctx.fail(rule, owner, role, what, node, construct=None if owner is not None else c.qualname)
    if not hits:
        ctx.ok(rule, None, role, f"{len(seen)} classes of the anchored modules scanned, 0 instances; positive example fires, negative example silent", construct="classes")


def _scan_own(fi: FuncInfo, rule_fn):
    out = rule_fn(fi.node)
    nested = [n for n in ast.walk(fi.node) if n is not fi.node and isinstance(n, (ast.FunctionDef, ast.AsyncFunctionDef))]
    if not nested:
        return out
    inner = set()
    for nf in nested:
        for x in ast.walk(nf):
            inner.add(id(x))
    return [(n, w) for n, w in out if id(n) not in inner]
